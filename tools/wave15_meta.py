"""one-off: re-run the quick check on every wave-15 seeded change, refresh `checks` in meta.json, add wave/history"""
import concurrent.futures, json, os, shutil, subprocess, sys, tempfile, time
VERIF = os.path.dirname(os.path.dirname(os.path.abspath(__file__)))
M = "MISSED by the check as it stood when this change arrived (quick tier exit 0): "
D = "detected by the check as it stood when this change arrived"
H = {
 "C01-29": M + "C01 grammars had at most a handful of prefix groups per symbol; a symbol with 120 prefix groups is now factorized and parsed",
 "C01-30": M + "no C01 text made a sequence template be read again from a later token after a roll-back; 'sequence_backtracking_case' does",
 "C02-29": M + "no C02 grammar had a symbol that derives the empty string and nothing else in front of the deciding token; 'gen_epsilon_only_grammar' was added",
 "C02-30": M + "FOLLOW sets never had to travel round a ring of symbols whose FIRST sets hold only the empty string; 'gen_follow_ring_grammar' was added",
 "C03-29": M + "productions of the C03 grammars without a token were made of distinct symbols; the symbol in front of a right recursion may now be the same nullable symbol two or three times and a symbol that is not nullable",
 "C03-30": M + "the harness let an exception of another type out of the long-cycle cases (it ended inconclusive); any other exception from the constructor is now the violation 'constructor-raised-something-else'",
 "C04-29": M + "no multi-line token of the C04 configurations was closed by an EMPTY line; the configuration 'block closed by an empty line' was added",
 "C04-30": M + "src_name never held a per cent sign; every fifth input is now named like '50%d.cfg'",
 "C05-29": M + "keywords were declared for the kinds the patterns name; a keyword on the TARGET of a synonym was added",
 "C05-30": M + "no C05 grammar had list / sequence items whose alternatives start with the same word ('name=value' or 'name'); 'attribute_list_case' was added",
 "C06-29": M + "the packed-refs files the harness wrote were sorted; a third of the directories now gets an unsorted file (git itself writes such files after 'pack-refs' of older versions and by hand-made tooling)",
 "C06-30": M + "the search text was never empty; '' (which finds every commit) is now one of the texts",
 "C07-29": M + "component histories were linear; 'gen_comp_with_merges' pins builds of merged topic branches - this is also how the genuine defect repaired by 5e2630b was found",
 "C07-30": M + "same extension as C07-29 (component builds on parallel sub-branches whose ids are not in commit order); re-based after the fix",
 "C08-29": D + " (chunk slices with a step)",
 "C08-30": M + "fixed_len widths stayed below 300; widths of 65537..70000 are now asked for (the results are checked and kept out of the pool)",
 "C09-29": D + " (effect-only short strings through strip_colors)",
 "C09-30": D + " (padding of a chunk list that ends with a blank chunk)",
 "C10-29": M + "a ready palette object was given with no_color only for the stock palettes; a synced object of a palette class of the application is now given, too",
 "C10-30": M + "formats set a second time always named columns; the limits-only forms (';1:1', ';*', '') are now set after a print and the reference follows them",
 "C11-29": M + "lists deep in a structure were short; lists of twenty codes of one width are now printed 58-99 levels down, where the line is narrower than one item",
 "C11-30": M + "dicts had at most 20 keys; dicts of more than 64 keys with bool, int, float and str keys were added",
 "C12-29": D + " (cells whose first chunk is empty)",
 "C12-30": D + " (cell texts given as CHText, aligned left)",
 "C13-29": D + " (skipped-records line under title and summary lines)",
 "C13-30": D + " (column widths with both limits set)",
 "C14-29": D + " (re-sync with the same configuration object after it was amended)",
 "C14-30": M + "components were registered from class-level dictionaries that live on; they are now also registered from dictionaries that are dropped at once, so that object ids are used again",
 "C15-29": M + "the grouped column had no index; a descending index makes sqlite return the groups in another order when ORDER BY is left out",
 "C15-30": M + "as_scalars was asked of one-column requests over tables; 'SELECT *' scalars over views of changing width were added",
 "C16-29": D + " (ids across the 10000-requests block boundary)",
 "C16-30": M + "the caller's own ids never looked like the connection's; own ids spelled like the ids the connection generates (its 4 characters first) were added",
 "C17-29": M + "every fake response had a body; responses with an empty body now go through the adapters, too",
 "C17-30": M + "every wrapper called get_conn itself; a plain helper shared by wrappers of two components is now the immediate caller",
 "C18-29": M + "key converters gave scalars; a glossary whose single key converter gives a tuple (and a NOT_SET default) was added",
 "C18-30": M + "numeric titles counted from 1; sheets whose numeric titles count from 0 were added",
 "C19-29": D + " (an empty string as the first argument)",
 "C19-30": D + " (commands reached through two parents)",
 "C20-29": D + " (36-character strings that are not plain hex)",
 "C20-30": D + " (padded strings with characters outside the alphabet)",
}
def one(d):
    prop = d.split("-")[0]
    sd = os.path.join(VERIF, "seeded", d)
    scratch = tempfile.mkdtemp(prefix="vf-w15-")
    repo = os.path.join(scratch, "repo")
    shutil.copytree("/repo", repo, ignore=shutil.ignore_patterns(".git", "__pycache__"))
    try:
        r = subprocess.run(["patch", "-p1", "-s", "-i", os.path.join(sd, "patch.diff")], cwd=repo, capture_output=True, text=True)
        assert r.returncode == 0, (d, r.stdout, r.stderr)
        t0 = time.time()
        r = subprocess.run(["/venv/bin/python", "-m", "vf.run", prop, "--tier", "quick", "--no-evidence"], cwd=VERIF,
                           env=dict(os.environ, VERIF_REPO=repo), capture_output=True, text=True)
        lines = [l[:400] for l in r.stdout.splitlines() if l.startswith("VIOLATION") or l.startswith("  mechanism")][:2]
        det = r.returncode == 1 and any(l.startswith("VIOLATION property=" + prop) for l in lines)
        m = json.load(open(os.path.join(sd, "meta.json")))
        m["checks"] = {prop: {"tier": "quick", "rc": r.returncode, "detected": det, "wall_s": round(time.time() - t0, 1),
                              "first_lines": lines}}
        m["wave"] = 15
        m["history"] = H[d]
        json.dump(m, open(os.path.join(sd, "meta.json"), "w"), indent=1)
        return d, det, r.returncode
    finally:
        shutil.rmtree(scratch, ignore_errors=True)
ds = sorted(H)
with concurrent.futures.ThreadPoolExecutor(8) as ex:
    for d, det, rc in ex.map(one, ds):
        print(d, "DETECTED" if det else "MISSED rc=%s" % rc)
