"""one-off: re-run the quick check on every wave-15 seeded change, refresh `checks` in meta.json, add wave/history"""
import concurrent.futures, json, os, shutil, subprocess, sys, tempfile, time
VERIF = os.path.dirname(os.path.dirname(os.path.abspath(__file__)))
M = "MISSED by the check as it stood when this change arrived (quick tier exit 0): "
D = "detected by the check as it stood when this change arrived"
H = {
 "C01-35": M + "every non-terminal had a name; one of the symbols of every twelfth grammar now has the empty name (and is the explicit start symbol of some parses)",
 "C01-36": M + "every keyword was reported under a name; the word 'end' of one configuration is now reported under the empty name",
 "C02-35": M + "C02 had no template with options; 'template_options_case' writes list and map templates with the final delimiter allowed, forbidden (an explicit False) or left at its default",
 "C02-36": D + " (an AnyTokenExcept that excludes nothing)",
 "C03-35": D + " (factorized productions whose prefix and suffix match nothing)",
 "C03-36": D + " (tokenizers with nothing to skip)",
 "C04-35": D + " (tokens and nodes whose value is empty although their span is not)",
 "C04-36": D + " (the empty text with a nullable start symbol)",
 "C05-35": D + " (bracket-less lists whose items are all left out)",
 "C05-36": M + "every span pattern of C05 had a synonym; block comments whose opening pattern is itself called COMMENT were added to 'twice_case'",
 "C06-35": M + "every commit had a message; a few per cent now have the empty one (and the empty search text finds them)",
 "C06-36": D + " (build number 0)",
 "C07-35": D + " (commits whose tags are all no build tags)",
 "C07-36": M + "every id of a collection had a repository object; some ids now come with the place of the repository only and no class registered (the entry is left out) while others name them as components",
 "C08-35": M + "slice steps were None, 1, 2, 3 or -1; the step 0 (refused by str, text and chunk alike) was added",
 "C08-36": M + "no formatter used the grays; g0 and g23 were added - and a documented look that cannot be made is now a violation instead of a harness error",
 "C09-35": D + " (negative gray numbers)",
 "C09-36": D + " (float components of rgb triples)",
 "C10-35": M + "no palette class of the application was without descriptions of its own; 'first_use_case' renders with one (it names its parents) as the first use of a configuration, before and after a stock table",
 "C10-36": M + "the enum palette of the application repeated the descriptions of its base class; one that brings only its own was added to 'first_use_case'",
 "C11-35": D + " (the sum of a result and an empty text, extended in place)",
 "C11-36": M + "no dict had both None and True as keys; the pairs [None, True] were added to the mixed-key dicts",
 "C12-35": M + "the values of the enum column that are no members were truthy; 0, 0.0 and '' were added - which showed the nineteenth genuine defect (8b5c44c) on the way",
 "C12-36": M + "the items of title lists were truthy; None, False and 0.0 were added, and on the first print a title is cut only when it is too long for the column's maximum",
 "C13-35": M + "no C13 table was printed again after its record list had grown; 'grown_table_case' does (fixed widths, an explicit footer)",
 "C13-36": D + " (ranges whose minimum is above their maximum, reported after a print)",
 "C14-35": D + " (descriptions with an empty middle section)",
 "C14-36": M + "the class without built-in items never met an id that is a built-in item of the package's own class; 'bare_class_case' now refers to NAME, which is nobody's item there until it is registered",
 "C15-35": D + " (None given as a keyword operand of an OR group)",
 "C15-36": D + " (one-row requests as scalars over a column with NULLs)",
 "C16-35": D + " (connections made from a one-element list)",
 "C16-36": M + "the headers dict the threads keep was never empty; a second one is, and has to stay empty",
 "C17-35": D + " (an empty headers dict of the caller)",
 "C17-36": M + "component names were non-empty; 'M4' now has the component '' with a prefix of its own",
 "C18-35": M + "text columns held texts and the number 17; 0, 0.0 and False were added",
 "C18-36": M + "the yes/no converters had the stock value lists or non-empty ones; 'switched_off_values_case' gives one of the lists as empty",
 "C19-35": M + "_no_log was True or left out; None, 0 and '' are now given, too",
 "C19-36": M + "options were added without a help text; help=None and help='' are now given for a quarter of them",
 "C20-35": D + " (the nil uuid decoded more than once)",
 "C20-36": M + "no process began with the nil uuid; two of the fresh-interpreter probes now do",
}
def one(d):
    prop = d.split("-")[0]
    sd = os.path.join(VERIF, "seeded", d)
    scratch = tempfile.mkdtemp(prefix="vf-w18-")
    repo = os.path.join(scratch, "repo")
    shutil.copytree("/repo", repo, ignore=shutil.ignore_patterns(".git", "__pycache__"))
    try:
        r = subprocess.run(["patch", "-p1", "-s", "-i", os.path.join(sd, "patch.diff")], cwd=repo, capture_output=True, text=True)
        assert r.returncode == 0, (d, r.stdout, r.stderr)
        t0 = time.time()
        r = subprocess.run(["/venv/bin/python", "-m", "vf.run", prop, "--tier", "quick", "--no-evidence"], cwd=VERIF,
                           env=dict(os.environ, VERIF_REPO=repo), capture_output=True, text=True)
        lines = [l[:400] for l in r.stdout.splitlines() if l.startswith("VIOLATION") or l.startswith("  mechanism")][:2]
        det = r.returncode == 1 and any(l.startswith("VIOLATION property=" + prop) for l in lines)
        m = json.load(open(os.path.join(sd, "meta.json")))
        m["checks"] = {prop: {"tier": "quick", "rc": r.returncode, "detected": det, "wall_s": round(time.time() - t0, 1),
                              "first_lines": lines}}
        m["wave"] = 18
        m["history"] = H[d]
        json.dump(m, open(os.path.join(sd, "meta.json"), "w"), indent=1)
        return d, det, r.returncode
    finally:
        shutil.rmtree(scratch, ignore_errors=True)
ds = sorted(H)
with concurrent.futures.ThreadPoolExecutor(8) as ex:
    for d, det, rc in ex.map(one, ds):
        print(d, "DETECTED" if det else "MISSED rc=%s" % rc)
