"""Run checks over several seeds / tiers and print one line per run (exit code, violations, wall).
   /venv/bin/python tools/sweep.py --tier quick --seeds 0-9 [--props C01,C02] [--jobs 3]
"""
import argparse
import concurrent.futures
import json
import os
import subprocess
import sys
import time

VERIF = os.path.dirname(os.path.dirname(os.path.abspath(__file__)))


def main():
    ap = argparse.ArgumentParser()
    ap.add_argument("--tier", default="quick")
    ap.add_argument("--seeds", default="0-4")
    ap.add_argument("--props")
    ap.add_argument("--jobs", type=int, default=2)
    args = ap.parse_args()
    lo, _, hi = args.seeds.partition("-")
    seeds = list(range(int(lo), int(hi or lo) + 1))
    props = args.props.split(",") if args.props else [
        json.loads(l)["id"] for l in open(os.path.join(VERIF, "properties.jsonl"))]
    jobs = [(p, s) for s in seeds for p in props]

    def run(job):
        p, s = job
        t0 = time.time()
        r = subprocess.run(["/venv/bin/python", "-m", "vf.run", p, "--tier", args.tier, "--no-evidence"],
                           cwd=VERIF, env=dict(os.environ, VERIF_SEED=str(s)), capture_output=True, text=True)
        bad = [l for l in r.stdout.splitlines() if l.startswith(("VIOLATION", "INCONCLUSIVE", "  mechanism"))]
        return p, s, r.returncode, round(time.time() - t0, 1), bad[:3]

    n_bad = 0
    with concurrent.futures.ThreadPoolExecutor(args.jobs) as pool:
        for p, s, rc, wall, bad in pool.map(run, jobs):
            n_bad += rc != 0
            print(f"{p} {args.tier} seed={s} rc={rc} wall={wall}s {' | '.join(b[:200] for b in bad)}", flush=True)
    print(f"{len(jobs)} runs, {n_bad} with non-zero exit")
    return 1 if n_bad else 0


if __name__ == "__main__":
    sys.exit(main())
