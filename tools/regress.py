"""Regression of the checks against every catalogue mutant and every kept seeded change, over
several seeds. Prints, per change, on how many seeds it was flagged and the smallest witness count.

  /venv/bin/python tools/regress.py [--seeds 0,1,2] [--jobs 6] [--only C02] [--what mutants|seeded|all]
"""
import argparse
import concurrent.futures
import json
import os
import re
import shutil
import subprocess
import sys
import tempfile

VERIF = os.path.dirname(os.path.dirname(os.path.abspath(__file__)))
sys.path.insert(0, os.path.join(VERIF, "selftest"))
PY = "/venv/bin/python"


def prepare(change):
    scratch = tempfile.mkdtemp(prefix="vf-regr-")
    repo = os.path.join(scratch, "repo")
    # (the committed state of /repo: a seeded change somebody is trying out in the working tree at this moment must
    # not leak into the regression run)
    os.makedirs(repo)
    tar = subprocess.run(["git", "-C", "/repo", "archive", "HEAD"], capture_output=True, check=True).stdout
    subprocess.run(["tar", "-x", "-C", repo], input=tar, check=True)
    if change.get("diff"):
        r = subprocess.run(["patch", "-p1", "-s", "-i", change["diff"]], cwd=repo, capture_output=True, text=True)
        if r.returncode:
            shutil.rmtree(scratch, ignore_errors=True)
            return None, None
    else:
        reps = [(change["file"], change["old"], change["new"])] + list(change.get("also", []))
        for f, old, new in reps:
            path = os.path.join(repo, f)
            src = open(path).read()
            if old not in src:
                shutil.rmtree(scratch, ignore_errors=True)
                return None, None
            open(path, "w").write(src.replace(old, new, 1))
    return scratch, repo


def run_change(change, seeds, tier):
    scratch, repo = prepare(change)
    if scratch is None:
        return change["name"], "PATCH-DOES-NOT-APPLY", []
    res = []
    try:
        for prop in change["props"]:
            for seed in seeds:
                env = dict(os.environ, VERIF_REPO=repo, VERIF_SEED=str(seed))
                r = subprocess.run([PY, "-m", "vf.run", prop, "--tier", tier, "--no-evidence"], cwd=VERIF, env=env,
                                   capture_output=True, text=True)
                viol = any(l.startswith("VIOLATION property=" + prop) for l in r.stdout.splitlines())
                counts = [int(x) for x in re.findall(r"mechanism=\S+ count=(\d+)", r.stdout)]
                res.append((prop, seed, r.returncode == 1 and viol, sum(counts), r.returncode))
    finally:
        shutil.rmtree(scratch, ignore_errors=True)
    return change["name"], "ran", res


def main():
    ap = argparse.ArgumentParser()
    ap.add_argument("--seeds", default="0,1,2")
    ap.add_argument("--jobs", type=int, default=5)
    ap.add_argument("--only")
    ap.add_argument("--what", default="all")
    ap.add_argument("--tier", default="quick")
    args = ap.parse_args()
    seeds = [int(x) for x in args.seeds.split(",")]
    changes = []
    if args.what in ("all", "mutants"):
        import catalogue
        for m in catalogue.MUTANTS:
            c = dict(m)
            if c.get("diff"):
                c["diff"] = os.path.join(VERIF, c["diff"])
            changes.append(c)
    if args.what in ("all", "seeded"):
        for d in sorted(os.listdir(os.path.join(VERIF, "seeded"))):
            if not os.path.isdir(os.path.join(VERIF, "seeded", d)):
                continue
            changes.append(dict(name="seeded/" + d, props=[d.split("-")[0]],
                                diff=os.path.join(VERIF, "seeded", d, "patch.diff")))
    if args.only:
        changes = [c for c in changes if args.only.upper() in c["props"]]
    weak = 0
    missed = 0
    with concurrent.futures.ThreadPoolExecutor(args.jobs) as pool:
        for name, status, res in pool.map(lambda c: run_change(c, seeds, args.tier), changes):
            if status != "ran":
                print(f"{name:52} {status}", flush=True)
                missed += 1
                continue
            hit = sum(1 for r in res if r[2])
            mn = min((r[3] for r in res if r[2]), default=0)
            flag = "OK"
            if hit < len(res):
                flag = "MISSED-ON-SOME-SEEDS " + ",".join(f"s{r[1]}:rc{r[4]}" for r in res if not r[2])
                missed += 1
            elif mn < 10:
                flag = "WEAK"
                weak += 1
            print(f"{name:52} flagged {hit}/{len(res)} min_count={mn:<6} {flag}", flush=True)
    print(f"{len(changes)} changes, {missed} not flagged on every seed, {weak} weak (fewer than 10 witnesses)")
    return 1 if missed else 0


if __name__ == "__main__":
    sys.exit(main())
