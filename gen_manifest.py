"""Regenerate MANIFEST.json from the check modules (keeps it valid at all times)."""
import importlib
import json
import os
import sys

sys.path.insert(0, os.path.dirname(os.path.abspath(__file__)))
import vf  # noqa
vf.use_repo()

PY = "/venv/bin/python"
props = [json.loads(l) for l in open(os.path.join(vf.VERIF, "properties.jsonl"))]
checks, not_applicable = [], []
for p in props:
    pid = p["id"]
    if not os.path.exists(os.path.join(vf.VERIF, "vf", "checks", pid.lower() + ".py")):
        not_applicable.append({"property_id": pid,
                               "reason": "not claimed yet: the runtime monitor for it is still being built (see DESIGN.md)"})
        continue
    mod = importlib.import_module(f"vf.checks.{pid.lower()}")
    checks.append({
        "property_id": pid,
        "quick_cmd": f"{PY} -m vf.run {pid} --tier quick",
        "thorough_cmd": f"{PY} -m vf.run {pid} --tier thorough",
        "evidence_file": f"/verif/evidence/{pid}.json",
        "replay_cmd_template": f"{PY} -m vf.run {pid} --replay {{path}}",
        "engine": "vf",
        "level_claimed": {
            "category": mod.LEVEL,
            "text": mod.LEVEL_TEXT,
            "design_ref": f"DESIGN.md section 2, {pid}",
        },
        "level_note": mod.LEVEL_NOTE,
        "technique": mod.TECHNIQUE,
    })
manifest = {
    "version": 1,
    "setup_cmd": f"{PY} -m vf.setup",
    "hooks": {
        "guard": "AK_PY_VERIF",
        "enable": "no source hooks: all observation points are public return values, exceptions, "
                  "fake openers/cursors/worksheets handed to the real code, and sys.monitoring / "
                  "sys.settrace callbacks attached from the harness; the checks import ak from "
                  "/repo's working tree (sys.path[0]=/repo)",
        "baseline_off_cmd": "cd /repo && /venv/bin/python -m pytest -ra -q -p no:cacheprovider --timeout=900 --continue-on-collection-errors",
        "source_commits": [],
        "add_only": True,
    },
    "engines": [{
        "name": "vf", "path": "/verif/vf",
        "serves_properties": [c["property_id"] for c in checks],
        "kind_free_text": "runtime monitoring: generated hostile workloads run against the real "
                          "code from /repo, observed by executable oracles (reference models, "
                          "history checkers, sys.monitoring hooks); one subprocess per shard",
    }],
    "checks": checks,
    "notes": "Verdicts are three-valued: exit 0 held on what was observed, exit 1 VIOLATION with a "
             "replay file, exit 2 INCONCLUSIVE (monitor counters below their floor, watchdog). "
             "Genuine defects found on the pinned tree were repaired by 'fix:' commits in /repo or "
             "are listed in /verif/known_findings.json.",
    "not_applicable": not_applicable,
}
json.dump(manifest, open(os.path.join(vf.VERIF, "MANIFEST.json"), "w"), indent=1)
print(f"{len(checks)} checks, {len(not_applicable)} not claimed")
try:
    import jsonschema
    jsonschema.validate(manifest, json.load(open("/root/.vp/MANIFEST.schema.json")))
    print("manifest valid")
except ImportError:
    pass
